#!/usr/bin/env python3
"""C17 dynamic harness: drives the exported C symbols of libanoncreds.so through ctypes.

  1. malformed-call matrix, generic over the entry-point table regenerated from src/ffi/** (Gen/ffi_table.json):
     every result pointer null in turn, all-benign arguments, bogus / freed / wrong-typed handles, non-UTF-8 and
     null strings — each call in a forked child so that an abort is observed as a signal, not as the end of the check;
  2. error slot: a failing call stores a retrievable message with its own code; reading clears it;
  3. native-vs-C-ABI decisions: verifications prepared (and decided) by the native harness are repeated through the
     C ABI; a complete issue-hold-present flow made through the C ABI is verified through both APIs;
  4. deterministic operations byte-identical: create_schema, encode, from_json -> get_json round trips.
Prints one JSON summary line: {"cases": n, "dist": {...}, "oracle_failures": [...]}.
usage: ffi_check.py <libanoncreds.so> <ffi_table.json> <ffi_flows.json> <vh binary> [--thorough]
"""
import ctypes as C, json, os, signal, subprocess, sys, tempfile

so_path, table_path, flows_path, vh = sys.argv[1:5]
thorough = '--thorough' in sys.argv
lib = C.CDLL(so_path)
table = json.load(open(table_path))
flows = json.load(open(flows_path))

cases = 0
dist = {}
fails = []


def count(k, n=1):
    dist[k] = dist.get(k, 0) + n


def fail(what, case, imp=None, sig=''):
    case = dict(case); case['sig'] = sig; case['fam'] = 'c17.' + case.get('kind', 'x')
    fails.append(dict(what=what, case=case, impl=imp))


class FfiList(C.Structure):
    _fields_ = [('count', C.c_size_t), ('data', C.c_void_p)]


class ByteBuffer(C.Structure):
    _fields_ = [('len', C.c_int64), ('data', C.c_void_p)]


class CredEntry(C.Structure):
    _fields_ = [('credential', C.c_size_t), ('timestamp', C.c_int32), ('rev_state', C.c_size_t)]


class CredProve(C.Structure):
    _fields_ = [('entry_idx', C.c_int64), ('referent', C.c_char_p), ('is_predicate', C.c_int8), ('reveal', C.c_int8)]


def ctype_of(t):
    t = t.replace('ffi_support::', '')
    if t == 'ObjectHandle': return C.c_size_t
    if t == 'FfiStr': return C.c_char_p
    if t.startswith('FfiList') or t == 'FfiStrList': return FfiList
    if t == 'ByteBuffer': return ByteBuffer
    if t == 'i64': return C.c_int64
    if t == 'i32': return C.c_int32
    if t == 'i8': return C.c_int8
    if t.startswith('*'): return C.c_void_p
    raise ValueError(t)


def fn(name, argtypes, restype=C.c_size_t):
    f = getattr(lib, name)
    f.argtypes = argtypes
    f.restype = restype
    return f


get_err = fn('anoncreds_get_current_error', [C.POINTER(C.c_char_p)])
str_free = fn('anoncreds_string_free', [C.c_char_p], None)
obj_free = fn('anoncreds_object_free', [C.c_size_t], None)
get_json = fn('anoncreds_object_get_json', [C.c_size_t, C.POINTER(ByteBuffer)])
buf_free = fn('anoncreds_buffer_free', [ByteBuffer], None)


def current_error():
    p = C.c_char_p()
    get_err(C.byref(p))
    s = p.value.decode() if p.value else ''
    return json.loads(s) if s else {}


def from_json(kind, obj):
    """object -> handle through anoncreds_<kind>_from_json; returns (rc, handle)"""
    data = (obj if isinstance(obj, str) else json.dumps(obj)).encode()
    buf = C.create_string_buffer(data, len(data))
    bb = ByteBuffer(len(data), C.cast(buf, C.c_void_p))
    h = C.c_size_t(0)
    f = fn(f'anoncreds_{kind}_from_json', [ByteBuffer, C.POINTER(C.c_size_t)])
    rc = f(bb, C.byref(h))
    return rc, h.value


def to_json(h):
    bb = ByteBuffer()
    rc = get_json(h, C.byref(bb))
    if rc != 0: return None
    s = C.string_at(bb.data, bb.len).decode()
    buf_free(bb)
    return s


def strlist(xs):
    arr = (C.c_char_p * len(xs))(*[x.encode() for x in xs])
    return FfiList(len(xs), C.cast(arr, C.c_void_p)), arr


def handlelist(hs):
    arr = (C.c_size_t * len(hs))(*hs)
    return FfiList(len(hs), C.cast(arr, C.c_void_p)), arr


# ------------------------------------------------------------------ 1. malformed-call matrix (forked children)
def in_child(thunk):
    """run thunk() in a forked child; returns ('rc', n) or ('signal', n)"""
    r, w = os.pipe()
    pid = os.fork()
    if pid == 0:
        os.close(r)
        try:
            rc = thunk()
            os.write(w, str(int(rc)).encode())
        except BaseException as e:   # noqa
            os.write(w, b'exc')
        os._exit(0)
    os.close(w)
    data = b''
    while True:
        chunk = os.read(r, 64)
        if not chunk: break
        data += chunk
    os.close(r)
    _, status = os.waitpid(pid, 0)
    if os.WIFSIGNALED(status):
        return ('signal', os.WTERMSIG(status))
    try:
        return ('rc', int(data.decode()))
    except ValueError:
        return ('rc', -1)


# live objects for the handle experiments
rc, schema_h = from_json('schema', {"name": "s", "version": "1.0", "attrNames": ["a"], "issuerId": "did:web:x"})
rc2, presreq_h = from_json('presentation_request', {"nonce": "1", "name": "r", "version": "1.0", "requested_attributes": {"a": {"name": "n"}}, "requested_predicates": {}})
rc3, freed_h = from_json('schema', {"name": "f", "version": "1.0", "attrNames": ["a"], "issuerId": "did:web:x"})
obj_free(freed_h)
BOGUS = 2 ** 62 + 7

keep = []   # keep ctypes buffers alive


def benign(t, mode):
    t0 = t.replace('ffi_support::', '')
    if t0 == 'ObjectHandle':
        return {'zero': 0, 'bogus': BOGUS, 'freed': freed_h, 'wrongtype': presreq_h}.get(mode, 0)
    if t0 == 'FfiStr':
        if mode == 'nonutf8': return b'\xff\xfe\xfd'
        if mode == 'str': return b'x'
        return None
    if t0.startswith('FfiList') or t0 == 'FfiStrList':
        if mode in ('bogus', 'freed', 'wrongtype') and t0 == 'FfiList<ObjectHandle>':
            l, arr = handlelist([{'bogus': BOGUS, 'freed': freed_h, 'wrongtype': presreq_h}[mode]])
            keep.append(arr); return l
        if mode == 'nullstr' and t0 == 'FfiStrList':
            arr = (C.c_char_p * 1)(None); keep.append(arr)
            return FfiList(1, C.cast(arr, C.c_void_p))
        if mode == 'negcount':
            return FfiList(2 ** 63, None)   # a "negative" count with a null data pointer
        return FfiList(0, None)
    if t0 == 'ByteBuffer':
        if mode == 'garbage':
            b = C.create_string_buffer(b'{"x":', 5); keep.append(b)
            return ByteBuffer(5, C.cast(b, C.c_void_p))
        return ByteBuffer(0, None)
    if t0 in ('i64', 'i32', 'i8'):
        return -1 if mode == 'negcount' else 0
    if t0.startswith('*const'):
        return None
    raise ValueError(t)


def out_buffer(t):
    b = C.create_string_buffer(64); keep.append(b)
    return C.cast(b, C.c_void_p)


GENERIC = {'anoncreds_object_get_json', 'anoncreds_object_get_type_name'}   # accept a handle of any type by design
SKIP = {'anoncreds_set_default_logger'}   # initialises a process-global logger (panics on the second call by design of env_logger; caught)
for e in table:
    if not e['returnsErrorCode'] or e['name'] in SKIP:
        continue
    params = e['params']
    outs = [i for i, (n, t) in enumerate(params) if t.startswith('*mut')]
    argtypes = [ctype_of(t) for _, t in params]
    f = fn(e['name'], argtypes)

    def call(null_out=None, mode='zero'):
        args = []
        for i, (n, t) in enumerate(params):
            if t.startswith('*mut'):
                args.append(None if i == null_out else out_buffer(t))
            else:
                args.append(benign(t, mode))
        return lambda: f(*args)

    # each result pointer null in turn: must be refused with an error code, never a crash
    for o in outs:
        r = in_child(call(null_out=o, mode='zero'))
        cases += 1; count('c17:null-result-pointer')
        c = dict(kind='null-result-pointer', entry=e['name'], param=params[o][0])
        if r[0] == 'signal':
            fail('null result pointer crashed the process', c, dict(signal=r[1]))
        elif r[1] == 0:
            fail('null result pointer accepted (returned Success)', c, dict(rc=r[1]))
    modes = ['zero', 'bogus', 'freed', 'wrongtype', 'nonutf8', 'str', 'nullstr', 'garbage', 'negcount']
    for mode in modes:
        r = in_child(call(mode=mode))
        cases += 1; count('c17:malformed:' + mode)
        c = dict(kind='malformed', entry=e['name'], mode=mode)
        has_handle = any(t == 'ObjectHandle' or t == 'FfiList<ObjectHandle>' for _, t in params)
        if r[0] == 'signal':
            fail('malformed call crashed the process', c, dict(signal=r[1]))
        elif mode in ('bogus', 'freed', 'wrongtype') and has_handle and r[1] == 0 and not (mode == 'wrongtype' and e['name'] in GENERIC):
            fail('stale / wrong-typed / unknown handle accepted (returned Success)', c, dict(rc=r[1]))

# ------------------------------------------------------------------ 2. error slot
current_error()
rc, _ = from_json('schema', '{"not": "a schema"')
e1 = current_error(); e2 = current_error()
cases += 1; count('c17:error-slot')
if rc == 0 or e1.get('code') != rc or not e1.get('message') or e2.get('code') != 0 or e2.get('message') is not None:
    fail('error slot does not hold exactly the failing call\'s error, or is not cleared by reading', dict(kind='error-slot'), dict(rc=rc, first=e1, second=e2))

# ------------------------------------------------------------------ 3. decisions: native verdicts repeated through the C ABI
verify_legacy = fn('anoncreds_verify_presentation', [C.c_size_t, C.c_size_t, FfiList, FfiList, FfiList, FfiList, FfiList, FfiList, FfiList, FfiList, C.POINTER(C.c_int8)])
verify_w3c = fn('anoncreds_verify_w3c_presentation', [C.c_size_t, C.c_size_t, FfiList, FfiList, FfiList, FfiList, FfiList, FfiList, FfiList, FfiList, C.POINTER(C.c_int8)])


class OverrideEntry(C.Structure):
    _fields_ = [('rev_reg_def_id', C.c_char_p), ('requested_from_ts', C.c_int32), ('override_rev_status_list_ts', C.c_int32)]


def ffi_verify(flow):
    made = []
    def mk(kind, obj):
        rc, h = from_json(kind, obj)
        if rc != 0: raise RuntimeError(f'{kind}_from_json rc={rc} {current_error()}')
        made.append(h); return h
    try:
        ctx = flow['ctx']
        ph = mk('w3c_presentation' if flow['format'] == 'w3c' else 'presentation', flow['presentation'])
        rh = mk('presentation_request', flow['request'])
        sch = [mk('schema', o) for _, o in ctx['schemas']]; sids, k1 = strlist([i for i, _ in ctx['schemas']])
        cds = [mk('credential_definition', o) for _, o in ctx['cred_defs']]; cids, k2 = strlist([i for i, _ in ctx['cred_defs']])
        rrd = ctx.get('rev_reg_defs') or []
        rds = [mk('revocation_registry_definition', o) for _, o in rrd]; rids, k3 = strlist([i for i, _ in rrd])
        lists = [mk('revocation_status_list', o) for o in (ctx.get('lists') or [])]
        hl = [handlelist(x) for x in (sch, cds, rds, lists)]
        res = C.c_int8(-1)
        f = verify_w3c if flow['format'] == 'w3c' else verify_legacy
        ovr = ctx.get('override') or []
        if ovr:
            keep = [i.encode() for i, _, _ in ovr]
            arr = (OverrideEntry * len(ovr))(*[OverrideEntry(keep[n], int(f_), int(t_)) for n, (_, f_, t_) in enumerate(ovr)])
            ovl = FfiList(len(ovr), C.cast(arr, C.c_void_p))
        else:
            ovl = FfiList(0, None)
        rc = f(ph, rh, hl[0][0], sids, hl[1][0], cids, hl[2][0], rids, hl[3][0], ovl, C.byref(res))
        if rc != 0:
            current_error(); return 'E'
        return 'T' if res.value == 1 else 'F'
    except RuntimeError:
        return 'E'
    finally:
        for h in made: obj_free(h)


for flow in flows['flows']:
    v = ffi_verify(flow)
    cases += 1; count(f"c17:verify:{flow['format']}:{flow['cls']}:{flow['native']}")
    same = (v == flow['native']) or (v in 'EF' and flow['native'] in 'EF')
    if not same:
        fail('C ABI verification decides differently from the native API', dict(kind='decision', format=flow['format'], cls=flow['cls'], request=flow['request'], presentation=flow['presentation']), dict(native=flow['native'], ffi=v))

# every (object list, id list) pair of the verify entry points, one list one member short, in an otherwise valid call
def length_mismatch(flow):
    global cases
    made = []
    def mk(kind, obj):
        rc, h = from_json(kind, obj)
        if rc != 0: raise RuntimeError(kind)
        made.append(h); return h
    try:
        ctx = flow['ctx']
        ph = mk('w3c_presentation' if flow['format'] == 'w3c' else 'presentation', flow['presentation'])
        rh = mk('presentation_request', flow['request'])
        objs = dict(schemas=[mk('schema', o) for _, o in ctx['schemas']], cred_defs=[mk('credential_definition', o) for _, o in ctx['cred_defs']],
                    rev_reg_defs=[mk('revocation_registry_definition', o) for _, o in (ctx.get('rev_reg_defs') or [])])
        ids = dict(schemas=[i for i, _ in ctx['schemas']], cred_defs=[i for i, _ in ctx['cred_defs']], rev_reg_defs=[i for i, _ in (ctx.get('rev_reg_defs') or [])])
        lists = [mk('revocation_status_list', o) for o in (ctx.get('lists') or [])]
        f = verify_w3c if flow['format'] == 'w3c' else verify_legacy
        for pair in ('schemas', 'cred_defs', 'rev_reg_defs'):
            if not objs[pair]:
                continue
            for short in ('objects', 'ids', 'objects-long', 'ids-long'):
                o = {k: list(v) for k, v in objs.items()}; i = {k: list(v) for k, v in ids.items()}
                if short == 'objects': o[pair].pop()
                elif short == 'ids': i[pair].pop()
                # one member too many at the end: everything the call needs is there, only the lengths disagree
                elif short == 'objects-long': o[pair].append(o[pair][0])
                else: i[pair].append('did:web:superfluous/' + pair)
                hl = {k: handlelist(v) for k, v in o.items()}; sl = {k: strlist(v) for k, v in i.items()}
                ll, kk = handlelist(lists)
                res = C.c_int8(-1)
                rc = f(ph, rh, hl['schemas'][0], sl['schemas'][0], hl['cred_defs'][0], sl['cred_defs'][0], hl['rev_reg_defs'][0], sl['rev_reg_defs'][0], ll, FfiList(0, None), C.byref(res))
                cases += 1; count('c17:length-mismatch')
                if rc == 0:
                    fail('mismatched list lengths accepted (returned Success)', dict(kind='length-mismatch', entry='verify_' + flow['format'], pair=pair, short=short), dict(rc=rc, result=res.value))
                else:
                    current_error()
    except RuntimeError:
        pass
    finally:
        for h in made: obj_free(h)


for fmt in ('legacy', 'w3c'):
    cand = [fl for fl in flows['flows'] if fl['format'] == fmt and fl['cls'] == 'honest' and (fl['ctx'].get('rev_reg_defs') or [])]
    if cand:
        length_mismatch(cand[0])

# list length mismatch on the verify entry point: one schema, no id
if flows['flows']:
    flow = dict(flows['flows'][0]); ctx = dict(flow['ctx']); flow['ctx'] = ctx
    made = []
    rc, ph = from_json('w3c_presentation' if flow['format'] == 'w3c' else 'presentation', flow['presentation']); made.append(ph)
    rc, rh = from_json('presentation_request', flow['request']); made.append(rh)
    rc, sh = from_json('schema', ctx['schemas'][0][1]); made.append(sh)
    hl, k = handlelist([sh]); res = C.c_int8(-1)
    f = verify_w3c if flow['format'] == 'w3c' else verify_legacy
    rc = f(ph, rh, hl, FfiList(0, None), FfiList(0, None), FfiList(0, None), FfiList(0, None), FfiList(0, None), FfiList(0, None), FfiList(0, None), C.byref(res))
    cases += 1; count('c17:length-mismatch')
    if rc == 0:
        fail('mismatched list lengths accepted', dict(kind='length-mismatch', entry='verify_presentation'), dict(rc=rc))
    current_error()
    for h in made: obj_free(h)

# a complete flow made through the C ABI, verified through both APIs
def ffi_flow():
    def chk(rc, what):
        if rc != 0: raise RuntimeError(f'{what}: rc={rc} {current_error()}')
    H = C.c_size_t
    names, k0 = strlist(['name', 'age'])
    sh = H(); chk(fn('anoncreds_create_schema', [C.c_char_p, C.c_char_p, C.c_char_p, FfiList, C.POINTER(H)])(b'gvt', b'1.0', b'did:web:ffi', names, C.byref(sh)), 'create_schema')
    cd, cdp, kcp = H(), H(), H()
    chk(fn('anoncreds_create_credential_definition', [C.c_char_p, H, C.c_char_p, C.c_char_p, C.c_char_p, C.c_int8, C.POINTER(H), C.POINTER(H), C.POINTER(H)])(
        b'did:web:ffi/schema', sh, b'tag', b'did:web:ffi', b'CL', 0, C.byref(cd), C.byref(cdp), C.byref(kcp)), 'create_credential_definition')
    offer = H(); chk(fn('anoncreds_create_credential_offer', [C.c_char_p, C.c_char_p, H, C.POINTER(H)])(b'did:web:ffi/schema', b'did:web:ffi/cd', kcp, C.byref(offer)), 'create_credential_offer')
    ls = C.c_char_p(); chk(fn('anoncreds_create_link_secret', [C.POINTER(C.c_char_p)])(C.byref(ls)), 'create_link_secret')
    secret = ls.value
    req, meta = H(), H()
    chk(fn('anoncreds_create_credential_request', [C.c_char_p, C.c_char_p, H, C.c_char_p, C.c_char_p, H, C.POINTER(H), C.POINTER(H)])(
        b'entropy', None, cd, secret, b'ls', offer, C.byref(req), C.byref(meta)), 'create_credential_request')
    raws, k1 = strlist(['Alice', '25'])
    cred = H(); chk(fn('anoncreds_create_credential', [H, H, H, H, FfiList, FfiList, FfiList, C.c_void_p, C.POINTER(H)])(
        cd, cdp, offer, req, names, raws, FfiList(0, None), None, C.byref(cred)), 'create_credential')
    cred2 = H(); chk(fn('anoncreds_process_credential', [H, H, C.c_char_p, H, H, C.POINTER(H)])(cred, meta, secret, cd, 0, C.byref(cred2)), 'process_credential')
    # one bad handle at a time in an otherwise valid call — required and OPTIONAL positions (an optional handle is 0 when absent;
    # a freed, unknown or wrong-typed one is an error, not "absent")
    def probe(entry, f, args, positions):
        global cases
        for pos, pname in positions:
            for kind, bad in (('freed', freed_h), ('bogus', BOGUS), ('wrongtype', presreq_h)):
                a = list(args); a[pos] = bad
                tmp = H(); a[-1] = C.byref(tmp)
                r = in_child(lambda: f(*a))
                cases += 1; count('c17:one-bad-handle:' + kind)
                c = dict(kind='one-bad-handle', entry=entry, param=pname, handle=kind)
                if r[0] == 'signal':
                    fail('a stale / unknown / wrong-typed handle crashed the process', c, dict(signal=r[1]))
                elif r[1] == 0:
                    fail('a stale / unknown / wrong-typed handle in an otherwise valid call was accepted (returned Success)', c, dict(rc=0))
    probe('anoncreds_process_credential', fn('anoncreds_process_credential', [H, H, C.c_char_p, H, H, C.c_void_p]),
          [cred.value, meta.value, secret, cd.value, 0, None], [(0, 'cred'), (1, 'cred_req_metadata'), (3, 'cred_def'), (4, 'rev_reg_def (optional)')])
    probe('anoncreds_create_credential', fn('anoncreds_create_credential', [H, H, H, H, FfiList, FfiList, FfiList, C.c_void_p, C.c_void_p]),
          [cd.value, cdp.value, offer.value, req.value, names, raws, FfiList(0, None), None, None], [(0, 'cred_def'), (1, 'cred_def_private'), (2, 'cred_offer'), (3, 'cred_request')])
    nonce = C.c_char_p(); chk(fn('anoncreds_generate_nonce', [C.POINTER(C.c_char_p)])(C.byref(nonce)), 'generate_nonce')
    reqj = {"nonce": nonce.value.decode(), "name": "r", "version": "1.0", "requested_attributes": {"a1": {"name": "name"}},
            "requested_predicates": {"p1": {"name": "age", "p_type": ">=", "p_value": 18}}}
    rc, prh = from_json('presentation_request', reqj); chk(rc, 'presentation_request_from_json')
    entries = (CredEntry * 1)(CredEntry(cred2.value, -1, 0))
    proves = (CredProve * 2)(CredProve(0, b'a1', 0, 1), CredProve(0, b'p1', 1, 0))
    sl, k2 = handlelist([sh.value]); sids, k3 = strlist(['did:web:ffi/schema'])
    cl, k4 = handlelist([cd.value]); cids, k5 = strlist(['did:web:ffi/cd'])
    pres = H()
    chk(fn('anoncreds_create_presentation', [H, FfiList, FfiList, FfiList, FfiList, C.c_char_p, FfiList, FfiList, FfiList, FfiList, C.POINTER(H)])(
        prh, FfiList(1, C.cast(entries, C.c_void_p)), FfiList(2, C.cast(proves, C.c_void_p)), FfiList(0, None), FfiList(0, None), secret, sl, sids, cl, cids, C.byref(pres)), 'create_presentation')
    # the same for the handles inside the credential entries of create_presentation: the credential and the OPTIONAL revocation state
    global cases
    cp = fn('anoncreds_create_presentation', [H, FfiList, FfiList, FfiList, FfiList, C.c_char_p, FfiList, FfiList, FfiList, FfiList, C.c_void_p])
    for field in ('credential', 'rev_state (optional)'):
        for kind, bad in (('freed', freed_h), ('bogus', BOGUS), ('wrongtype', presreq_h)):
            ent = (CredEntry * 1)(CredEntry(bad, -1, 0) if field == 'credential' else CredEntry(cred2.value, 5, bad))
            tmp = H()
            r = in_child(lambda: cp(prh, FfiList(1, C.cast(ent, C.c_void_p)), FfiList(2, C.cast(proves, C.c_void_p)), FfiList(0, None), FfiList(0, None), secret, sl, sids, cl, cids, C.byref(tmp)))
            cases += 1; count('c17:one-bad-handle:' + kind)
            c = dict(kind='one-bad-handle', entry='anoncreds_create_presentation', param='credentials[0].' + field, handle=kind)
            if r[0] == 'signal':
                fail('a stale / unknown / wrong-typed handle crashed the process', c, dict(signal=r[1]))
            elif r[1] == 0:
                fail('a stale / unknown / wrong-typed handle in an otherwise valid call was accepted (returned Success)', c, dict(rc=0))
    # a self-attested attribute through the C ABI: it must arrive in the presentation, which must verify
    reqs = dict(reqj); reqs['requested_attributes'] = dict(reqj['requested_attributes'], s1={"name": "nick"})
    rc, prhs = from_json('presentation_request', reqs); chk(rc, 'presentation_request_from_json (self-attested)')
    san, ksan = strlist(['s1']); sav, ksav = strlist(['Al'])
    good = (CredProve * 2)(CredProve(0, b'a1', 0, 1), CredProve(0, b'p1', 1, 0))
    ps = H()
    chk(cp(prhs, FfiList(1, C.cast(entries, C.c_void_p)), FfiList(2, C.cast(good, C.c_void_p)), san, sav, secret, sl, sids, cl, cids, C.byref(ps)), 'create_presentation (self-attested)')
    psj = json.loads(to_json(ps.value)); r3 = C.c_int8(-1)
    rcv = verify_legacy(ps, prhs, sl, sids, cl, cids, FfiList(0, None), FfiList(0, None), FfiList(0, None), FfiList(0, None), C.byref(r3))
    cases += 1; count('c17:self-attested')
    if psj['requested_proof'].get('self_attested_attrs') != {'s1': 'Al'} or rcv != 0 or r3.value != 1:
        fail('a self-attested attribute passed through the C ABI does not arrive / the presentation does not verify', dict(kind='ffi-flow', what='self-attested'), dict(self_attested=psj['requested_proof'].get('self_attested_attrs'), rc=rcv, result=r3.value))
    # the same credential issued with caller-supplied encoded values (third list of create_credential)
    import hashlib, re as _re
    def enc(v):
        if _re.fullmatch(r'[+-]?[0-9]+', v) and -2 ** 31 <= int(v) < 2 ** 31: return str(int(v))
        return str(int.from_bytes(hashlib.sha256(v.encode()).digest(), 'big'))
    offer_e = H(); chk(fn('anoncreds_create_credential_offer', [C.c_char_p, C.c_char_p, H, C.POINTER(H)])(b'did:web:ffi/schema', b'did:web:ffi/cd', kcp, C.byref(offer_e)), 'create_credential_offer (3)')
    req_e, meta_e = H(), H()
    chk(fn('anoncreds_create_credential_request', [C.c_char_p, C.c_char_p, H, C.c_char_p, C.c_char_p, H, C.POINTER(H), C.POINTER(H)])(
        b'entropy', None, cd, secret, b'ls', offer_e, C.byref(req_e), C.byref(meta_e)), 'create_credential_request (3)')
    raw_e = ['Carol', '+042']; raws_e, ke1 = strlist(raw_e); encs_e, ke2 = strlist([enc(v) for v in raw_e])
    cred_e = H(); chk(fn('anoncreds_create_credential', [H, H, H, H, FfiList, FfiList, FfiList, C.c_void_p, C.POINTER(H)])(
        cd, cdp, offer_e, req_e, names, raws_e, encs_e, None, C.byref(cred_e)), 'create_credential (encoded values supplied)')
    cej = json.loads(to_json(cred_e.value))
    cases += 1; count('c17:encoded-values-supplied')
    if cej['values'] != {'name': {'raw': 'Carol', 'encoded': enc('Carol')}, 'age': {'raw': '+042', 'encoded': '42'}}:
        fail('credential made through the C ABI with caller-supplied encoded values does not carry them', dict(kind='ffi-flow', what='encoded-values'), dict(values=cej['values']))
    ce2 = H(); chk(fn('anoncreds_process_credential', [H, H, C.c_char_p, H, H, C.POINTER(H)])(cred_e, meta_e, secret, cd, 0, C.byref(ce2)), 'process_credential (encoded values supplied)')
    # the encoding helper of the C ABI on several values at once: the encodings joined by commas
    many = ['Alice', '25', '+007', '-0', '2147483648', '', 'né']
    ml, km = strlist(many); outp = C.c_char_p()
    rc = fn('anoncreds_encode_credential_attributes', [FfiList, C.POINTER(C.c_char_p)])(ml, C.byref(outp))
    cases += 1; count('c17:deterministic:encode-many')
    if rc != 0 or (outp.value or b'').decode() != ','.join(enc(v) for v in many):
        fail('anoncreds_encode_credential_attributes on several values is not the comma-joined list of their encodings', dict(kind='deterministic', op='encode_credential_attributes'), dict(rc=rc, got=(outp.value or b'').decode()[:200]))
    # two credential entries and three referents: the prove list is a flat list the caller may write in ANY order (attributes
    # first, second credential first, ...): every permutation must yield a presentation that verifies
    import itertools
    offer_b = H(); chk(fn('anoncreds_create_credential_offer', [C.c_char_p, C.c_char_p, H, C.POINTER(H)])(b'did:web:ffi/schema', b'did:web:ffi/cd', kcp, C.byref(offer_b)), 'create_credential_offer (2)')
    req_b, meta_b = H(), H()
    chk(fn('anoncreds_create_credential_request', [C.c_char_p, C.c_char_p, H, C.c_char_p, C.c_char_p, H, C.POINTER(H), C.POINTER(H)])(
        b'entropy', None, cd, secret, b'ls', offer_b, C.byref(req_b), C.byref(meta_b)), 'create_credential_request (2)')
    raws_b, kb = strlist(['Bob', '31'])
    cred_b = H(); chk(fn('anoncreds_create_credential', [H, H, H, H, FfiList, FfiList, FfiList, C.c_void_p, C.POINTER(H)])(
        cd, cdp, offer_b, req_b, names, raws_b, FfiList(0, None), None, C.byref(cred_b)), 'create_credential (2)')
    cred_b2 = H(); chk(fn('anoncreds_process_credential', [H, H, C.c_char_p, H, H, C.POINTER(H)])(cred_b, meta_b, secret, cd, 0, C.byref(cred_b2)), 'process_credential (2)')
    req2j = {"nonce": nonce.value.decode(), "name": "r", "version": "1.0", "requested_attributes": {"a1": {"name": "name"}, "a2": {"name": "name"}, "u2": {"name": "age"}},
             "requested_predicates": {"p1": {"name": "age", "p_type": ">=", "p_value": 18}}}
    rc, prh2 = from_json('presentation_request', req2j); chk(rc, 'presentation_request_from_json (2)')
    ent2 = (CredEntry * 2)(CredEntry(cred2.value, -1, 0), CredEntry(cred_b2.value, -1, 0))
    items = [(0, b'a1', 0, 1), (1, b'a2', 0, 1), (0, b'p1', 1, 0), (1, b'u2', 0, 0)]
    for perm in itertools.permutations(items):
        pv = (CredProve * 4)(*[CredProve(*it) for it in perm])
        p2 = H()
        rc = cp(prh2, FfiList(2, C.cast(ent2, C.c_void_p)), FfiList(4, C.cast(pv, C.c_void_p)), FfiList(0, None), FfiList(0, None), secret, sl, sids, cl, cids, C.byref(p2))
        cases += 1; count('c17:prove-list-order')
        c = dict(kind='prove-list-order', entry='anoncreds_create_presentation', order=[[it[0], it[1].decode()] for it in perm])
        if rc != 0:
            fail('create_presentation through the C ABI refuses a prove list written in another order', c, dict(rc=rc, error=current_error()))
            continue
        r2 = C.c_int8(-1)
        rcv = verify_legacy(p2, prh2, sl, sids, cl, cids, FfiList(0, None), FfiList(0, None), FfiList(0, None), FfiList(0, None), C.byref(r2))
        if rcv != 0 or r2.value != 1:
            fail('a presentation made through the C ABI from a prove list in another order does not verify (the native API takes a map: order cannot matter)', c, dict(rc=rcv, result=r2.value, error=current_error() if rcv else None))
        obj_free(p2.value)
    # malformed prove items and list pairs in an otherwise valid create_presentation call
    for what, pvl, sl_, sids_, cl_, cids_ in [
        ('negative entry index', [CredProve(-1, b'a1', 0, 1), CredProve(0, b'p1', 1, 0)], sl, sids, cl, cids),
        ('schema list without ids', [CredProve(0, b'a1', 0, 1), CredProve(0, b'p1', 1, 0)], sl, FfiList(0, None), cl, cids),
        ('schema ids without list', [CredProve(0, b'a1', 0, 1), CredProve(0, b'p1', 1, 0)], FfiList(0, None), sids, cl, cids),
        ('definition list without ids', [CredProve(0, b'a1', 0, 1), CredProve(0, b'p1', 1, 0)], sl, sids, cl, FfiList(0, None)),
        ('definition ids without list', [CredProve(0, b'a1', 0, 1), CredProve(0, b'p1', 1, 0)], sl, sids, FfiList(0, None), cids),
    ]:
        pv = (CredProve * len(pvl))(*pvl)
        tmp = H()
        r = in_child(lambda: cp(prh, FfiList(1, C.cast(entries, C.c_void_p)), FfiList(len(pvl), C.cast(pv, C.c_void_p)), FfiList(0, None), FfiList(0, None), secret, sl_, sids_, cl_, cids_, C.byref(tmp)))
        if what == 'negative entry index':
            # once more for the self-attested pair: names without values / values without names
            san, ksan = strlist(['nick']); sav, ksav = strlist(['Al'])
            good = (CredProve * 2)(CredProve(0, b'a1', 0, 1), CredProve(0, b'p1', 1, 0))
            for what2, a, b in (('self-attested names without values', san, FfiList(0, None)), ('self-attested values without names', FfiList(0, None), sav)):
                tmp2 = H()
                r2 = in_child(lambda: cp(prh, FfiList(1, C.cast(entries, C.c_void_p)), FfiList(2, C.cast(good, C.c_void_p)), a, b, secret, sl, sids, cl, cids, C.byref(tmp2)))
                cases += 1; count('c17:malformed-in-valid-call')
                c2 = dict(kind='malformed-in-valid-call', entry='anoncreds_create_presentation', what=what2)
                if r2[0] == 'signal':
                    fail('a malformed argument in an otherwise valid call crashed the process', c2, dict(signal=r2[1]))
                elif r2[1] == 0:
                    fail('a malformed argument in an otherwise valid call was accepted (returned Success)', c2, dict(rc=0))
        cases += 1; count('c17:malformed-in-valid-call')
        c = dict(kind='malformed-in-valid-call', entry='anoncreds_create_presentation', what=what)
        if r[0] == 'signal':
            fail('a malformed argument in an otherwise valid call crashed the process', c, dict(signal=r[1]))
        elif r[1] == 0:
            fail('a malformed argument in an otherwise valid call was accepted (returned Success)', c, dict(rc=0))
    res = C.c_int8(-1)
    chk(verify_legacy(pres, prh, sl, sids, cl, cids, FfiList(0, None), FfiList(0, None), FfiList(0, None), FfiList(0, None), C.byref(res)), 'verify_presentation')
    out = dict(format='legacy', request=reqj, presentation=json.loads(to_json(pres.value)),
               schemas=[['did:web:ffi/schema', json.loads(to_json(sh.value))]], cred_defs=[['did:web:ffi/cd', json.loads(to_json(cd.value))]])
    # deterministic output: the schema made through the C ABI equals the one the native API makes (flows['schema_native'] uses the pool issuer: compare shape here)
    return res.value, out


try:
    v, material = ffi_flow()
    cases += 1; count('c17:ffi-made-flow')
    if v != 1:
        fail('honest flow made through the C ABI does not verify through the C ABI', dict(kind='ffi-flow'), dict(result=v))
    # tampered copy as well
    t = json.loads(json.dumps(material)); k = next(iter(t['presentation']['requested_proof']['revealed_attrs']))
    t['presentation']['requested_proof']['revealed_attrs'][k]['encoded'] = '424242'
    with tempfile.NamedTemporaryFile('w', suffix='.json', delete=False, dir=os.path.dirname(flows_path)) as tf:
        json.dump(dict(flows=[material, t]), tf); tmp = tf.name
    outp = subprocess.run([vh, 'native_verify', tmp], capture_output=True, text=True).stdout.strip().split('\n')[-1]
    os.unlink(tmp)
    native = json.loads(outp)
    cases += 2; count('c17:ffi-made-verified-natively', 2)
    if native[0] != 'T' or native[1] == 'T':
        fail('material made through the C ABI is decided differently by the native API', dict(kind='ffi-flow-native'), dict(native=native))
except RuntimeError as ex:
    fail('flow through the C ABI failed: ' + str(ex), dict(kind='ffi-flow'))

# ------------------------------------------------------------------ 3b. revocation and W3C flows made entirely through the C ABI
class CredRevInfo(C.Structure):
    _fields_ = [('reg_def', C.c_size_t), ('reg_def_private', C.c_size_t), ('status_list', C.c_size_t), ('reg_idx', C.c_int64)]


def native_verdicts(materials):
    with tempfile.NamedTemporaryFile('w', suffix='.json', delete=False, dir=os.path.dirname(flows_path)) as tf:
        json.dump(dict(flows=materials), tf); tmp = tf.name
    outp = subprocess.run([vh, 'native_verify', tmp], capture_output=True, text=True).stdout.strip().split('\n')[-1]
    os.unlink(tmp)
    return json.loads(outp)


def ffi_rev_flow():
    """registry, status lists (both issuance modes), revocable credential, state, presentation with non-revocation proof, revoke, update"""
    global cases
    H = C.c_size_t
    def chk(rc, what):
        if rc != 0: raise RuntimeError(f'{what}: rc={rc} {current_error()}')
    m = flows['rev_material']
    rc, cd = from_json('credential_definition', m['cred_def']); chk(rc, 'cred_def')
    rc, cdp = from_json('credential_definition_private', m['cred_def_private']); chk(rc, 'cred_def_private')
    rc, kcp = from_json('key_correctness_proof', m['key_correctness_proof']); chk(rc, 'kcp')
    rc, sch = from_json('schema', m['schema']); chk(rc, 'schema')
    cid, sid, iss = m['cred_def_id'].encode(), m['schema_id'].encode(), m['issuer_id'].encode()
    tails_dir = tempfile.mkdtemp(prefix='ffi-tails-', dir=os.path.dirname(flows_path))
    import atexit, shutil
    atexit.register(lambda: shutil.rmtree(tails_dir, ignore_errors=True))
    rrd, rrdp = H(), H()
    chk(fn('anoncreds_create_revocation_registry_def', [H, C.c_char_p, C.c_char_p, C.c_char_p, C.c_char_p, C.c_int64, C.c_char_p, C.POINTER(H), C.POINTER(H)])(
        cd, cid, iss, b'ffi', b'CL_ACCUM', 5, tails_dir.encode(), C.byref(rrd), C.byref(rrdp)), 'create_revocation_registry_def')
    rrdj = json.loads(to_json(rrd.value)); tails_path = rrdj['value']['tailsLocation']
    rid = b'did:web:ffi/revreg'
    mk_list = fn('anoncreds_create_revocation_status_list', [H, C.c_char_p, H, H, C.c_char_p, C.c_int8, C.c_int64, C.POINTER(H)])
    # both issuance modes and the timestamp conventions, observed on the object
    for by_default, ts, want_bits, want_ts in [(1, 10, 0, 10), (0, 10, 1, 10), (1, 0, None, None), (1, -5, None, None)]:
        l = H(); chk(mk_list(cd, rid, rrd, rrdp, iss, by_default, ts, C.byref(l)), 'create_revocation_status_list')
        lj = json.loads(to_json(l.value))
        cases += 1; count('c17:revocation:status-list-made')
        bits = lj.get('revocationList')
        if want_bits is not None and (bits != [want_bits] * 5 or lj.get('timestamp') != want_ts):
            fail('status list made through the C ABI is not the one the native API makes for these arguments', dict(kind='ffi-rev', op='create_revocation_status_list', issuance_by_default=by_default, timestamp=ts), dict(revocationList=bits, timestamp=lj.get('timestamp')))
        if want_bits is None and 'timestamp' in lj and lj['timestamp'] is not None and ts < 0:
            fail('a negative timestamp was stored', dict(kind='ffi-rev', op='create_revocation_status_list', timestamp=ts), dict(timestamp=lj.get('timestamp')))
        if not (by_default == 1 and ts == 10):
            obj_free(l.value)
        else:
            list0 = l
    # issue credential 1 against list0
    offer = H(); chk(fn('anoncreds_create_credential_offer', [C.c_char_p, C.c_char_p, H, C.POINTER(H)])(sid, cid, kcp, C.byref(offer)), 'create_credential_offer')
    secret = flows['link_secret'].encode()
    req, meta = H(), H()
    chk(fn('anoncreds_create_credential_request', [C.c_char_p, C.c_char_p, H, C.c_char_p, C.c_char_p, H, C.POINTER(H), C.POINTER(H)])(
        b'entropy', None, cd, secret, b'ls', offer, C.byref(req), C.byref(meta)), 'create_credential_request')
    an = m['attr_names']; names, k0 = strlist(an); raws, k1 = strlist(['Alice' if a == 'name' else '25' if a == 'age' else 'x' for a in an])
    rev = CredRevInfo(rrd.value, rrdp.value, list0.value, 1)
    cred = H(); chk(fn('anoncreds_create_credential', [H, H, H, H, FfiList, FfiList, FfiList, C.POINTER(CredRevInfo), C.POINTER(H)])(
        cd, cdp, offer, req, names, raws, FfiList(0, None), C.byref(rev), C.byref(cred)), 'create_credential (revocable)')
    cred2 = H(); chk(fn('anoncreds_process_credential', [H, H, C.c_char_p, H, H, C.POINTER(H)])(cred, meta, secret, cd, rrd, C.byref(cred2)), 'process_credential (revocable)')
    mk_state = fn('anoncreds_create_or_update_revocation_state', [H, H, C.c_int64, C.c_char_p, H, H, C.POINTER(H)])
    st0 = H(); chk(mk_state(rrd, list0, 1, tails_path.encode(), 0, 0, C.byref(st0)), 'create_or_update_revocation_state')
    # revoke index 2 (somebody else), then index 1; states by update and from scratch
    upd = fn('anoncreds_update_revocation_status_list', [H, H, H, H, FfiList, FfiList, C.c_int64, C.POINTER(H)])
    def i32list(xs):
        arr = (C.c_int32 * len(xs))(*xs); return FfiList(len(xs), C.cast(arr, C.c_void_p)), arr
    r2, kr2 = i32list([2]); list1 = H(); chk(upd(cd, rrd, rrdp, list0, FfiList(0, None), r2, 20, C.byref(list1)), 'update_revocation_status_list (revoke 2)')
    r1, kr1 = i32list([1]); list2 = H(); chk(upd(cd, rrd, rrdp, list1, FfiList(0, None), r1, 30, C.byref(list2)), 'update_revocation_status_list (revoke 1)')
    st1 = H(); chk(mk_state(rrd, list1, 1, tails_path.encode(), st0, list0, C.byref(st1)), 'update revocation state')
    st1s = H(); chk(mk_state(rrd, list1, 1, tails_path.encode(), 0, 0, C.byref(st1s)), 'revocation state from scratch')
    st2 = H(); chk(mk_state(rrd, list2, 1, tails_path.encode(), st1, list1, C.byref(st2)), 'update revocation state (own index revoked)')
    for l, want in ((list1, [0, 0, 1, 0, 0]), (list2, [0, 1, 1, 0, 0])):
        lj = json.loads(to_json(l.value)); cases += 1; count('c17:revocation:status-list-updated')
        if lj.get('revocationList') != want:
            fail('status list updated through the C ABI does not show the requested changes', dict(kind='ffi-rev', op='update_revocation_status_list'), dict(revocationList=lj.get('revocationList'), want=want))
    nonce = C.c_char_p(); chk(fn('anoncreds_generate_nonce', [C.POINTER(C.c_char_p)])(C.byref(nonce)), 'generate_nonce')
    reqj = {"nonce": nonce.value.decode(), "name": "r", "version": "1.0", "requested_attributes": {"a1": {"name": "name"}},
            "requested_predicates": {"p1": {"name": "age", "p_type": ">=", "p_value": 18}}, "non_revoked": {"from": 5, "to": 40}}
    rc, prh = from_json('presentation_request', reqj); chk(rc, 'presentation_request_from_json')
    sl, k2 = handlelist([sch]); sids, k3 = strlist([m['schema_id']]); cl, k4 = handlelist([cd]); cids, k5 = strlist([m['cred_def_id']])
    rl, k6 = handlelist([rrd.value]); rids, k7 = strlist([rid.decode()])
    cp = fn('anoncreds_create_presentation', [H, FfiList, FfiList, FfiList, FfiList, C.c_char_p, FfiList, FfiList, FfiList, FfiList, C.POINTER(H)])
    cpw = fn('anoncreds_create_w3c_presentation', [H, FfiList, FfiList, C.c_char_p, FfiList, FfiList, FfiList, FfiList, C.c_char_p, C.POINTER(H)])
    w3cred = H(); chk(fn('anoncreds_credential_to_w3c', [H, C.c_char_p, C.c_char_p, C.POINTER(H)])(cred2, iss, None, C.byref(w3cred)), 'credential_to_w3c (revocable)')
    proves = (CredProve * 2)(CredProve(0, b'a1', 0, 1), CredProve(0, b'p1', 1, 0))
    materials, expected = [], []
    for (st, ts, lst, want, cls) in [(st0, 10, list0, 1, 'valid:list0'), (st1, 20, list1, 1, 'valid:updated-state'), (st1s, 20, list1, 1, 'valid:scratch-state'), (st2, 30, list2, 0, 'revoked:list2'), (st0, 10, list2, None, 'stale-state-no-matching-list')]:
        for fmt in ('legacy', 'w3c'):
            ent = (CredEntry * 1)(CredEntry((cred2 if fmt == 'legacy' else w3cred).value, ts, st.value))
            pres = H()
            if fmt == 'legacy':
                rc = cp(prh, FfiList(1, C.cast(ent, C.c_void_p)), FfiList(2, C.cast(proves, C.c_void_p)), FfiList(0, None), FfiList(0, None), secret, sl, sids, cl, cids, C.byref(pres))
            else:
                rc = cpw(prh, FfiList(1, C.cast(ent, C.c_void_p)), FfiList(2, C.cast(proves, C.c_void_p)), secret, sl, sids, cl, cids, None, C.byref(pres))
            cases += 1; count(f'c17:revocation:{fmt}:{cls}')
            if rc != 0:
                fail('a presentation with a non-revocation proof could not be made through the C ABI', dict(kind='ffi-rev', format=fmt, cls=cls), dict(rc=rc, error=current_error()))
                continue
            ll, k8 = handlelist([lst.value])
            res = C.c_int8(-1)
            f = verify_legacy if fmt == 'legacy' else verify_w3c
            rcv = f(pres, prh, sl, sids, cl, cids, rl, rids, ll, FfiList(0, None), C.byref(res))
            got = res.value if rcv == 0 else None
            if want is not None and got != want:
                fail('revocation flow through the C ABI is decided wrongly', dict(kind='ffi-rev', format=fmt, cls=cls), dict(rc=rcv, result=got, want=want, error=current_error() if rcv else None))
            materials.append(dict(format=fmt, request=reqj, presentation=json.loads(to_json(pres.value)), schemas=[[m['schema_id'], m['schema']]], cred_defs=[[m['cred_def_id'], m['cred_def']]],
                                  rev_reg_defs=[[rid.decode(), rrdj]], lists=[json.loads(to_json(lst.value))]))
            expected.append((fmt, cls, 'T' if got == 1 else 'F' if got == 0 else 'E'))
            obj_free(pres.value)
    native = native_verdicts(materials)
    for (fmt, cls, v), nv in zip(expected, native):
        cases += 1; count('c17:revocation:verified-natively')
        if not (v == nv or (v in 'EF' and nv in 'EF')):
            fail('revocation material made through the C ABI is decided differently by the native API', dict(kind='ffi-rev-native', format=fmt, cls=cls), dict(ffi=v, native=nv))
    # conversions through the C ABI are inverse to each other on the legacy credential (deterministic)
    back = H(); chk(fn('anoncreds_credential_from_w3c', [H, C.POINTER(H)])(w3cred, C.byref(back)), 'credential_from_w3c')
    cases += 1; count('c17:deterministic:to_w3c-from_w3c')
    if json.loads(to_json(back.value)) != json.loads(to_json(cred2.value)):
        fail('credential_to_w3c followed by credential_from_w3c through the C ABI changes the credential', dict(kind='deterministic', op='to_w3c/from_w3c'), {})
    import shutil; shutil.rmtree(tails_dir, ignore_errors=True)


def ffi_w3c_flow():
    """W3C issuance, processing, presentation and verification through the C ABI (non-revocable definition made through the C ABI)"""
    global cases
    H = C.c_size_t
    def chk(rc, what):
        if rc != 0: raise RuntimeError(f'{what}: rc={rc} {current_error()}')
    names, k0 = strlist(['name', 'age'])
    sh = H(); chk(fn('anoncreds_create_schema', [C.c_char_p, C.c_char_p, C.c_char_p, FfiList, C.POINTER(H)])(b'gvt', b'1.0', b'did:web:ffi', names, C.byref(sh)), 'create_schema')
    cd, cdp, kcp = H(), H(), H()
    chk(fn('anoncreds_create_credential_definition', [C.c_char_p, H, C.c_char_p, C.c_char_p, C.c_char_p, C.c_int8, C.POINTER(H), C.POINTER(H), C.POINTER(H)])(
        b'did:web:ffi/schema', sh, b'tag', b'did:web:ffi', b'CL', 0, C.byref(cd), C.byref(cdp), C.byref(kcp)), 'create_credential_definition')
    offer = H(); chk(fn('anoncreds_create_credential_offer', [C.c_char_p, C.c_char_p, H, C.POINTER(H)])(b'did:web:ffi/schema', b'did:web:ffi/cd', kcp, C.byref(offer)), 'create_credential_offer')
    secret = flows['link_secret'].encode()
    req, meta = H(), H()
    chk(fn('anoncreds_create_credential_request', [C.c_char_p, C.c_char_p, H, C.c_char_p, C.c_char_p, H, C.POINTER(H), C.POINTER(H)])(
        b'entropy', None, cd, secret, b'ls', offer, C.byref(req), C.byref(meta)), 'create_credential_request')
    materials, expected = [], []
    for ver in (None, b'1.1', b'2.0'):
        raws, k1 = strlist(['Alice', '25'])
        wc = H(); chk(fn('anoncreds_create_w3c_credential', [H, H, H, H, FfiList, FfiList, C.c_void_p, C.c_char_p, C.POINTER(H)])(
            cd, cdp, offer, req, names, raws, None, ver, C.byref(wc)), 'create_w3c_credential')
        wc2 = H(); chk(fn('anoncreds_process_w3c_credential', [H, H, C.c_char_p, H, H, C.POINTER(H)])(wc, meta, secret, cd, 0, C.byref(wc2)), 'process_w3c_credential')
        wj = json.loads(to_json(wc2.value))
        cases += 1; count('c17:w3c:credential-made')
        if wj.get('credentialSubject') != {'name': 'Alice', 'age': 25}:
            fail('W3C credential made through the C ABI has another subject than the native API gives for these raw values', dict(kind='ffi-w3c', op='create_w3c_credential'), dict(subject=wj.get('credentialSubject')))
        nonce = C.c_char_p(); chk(fn('anoncreds_generate_nonce', [C.POINTER(C.c_char_p)])(C.byref(nonce)), 'generate_nonce')
        reqj = {"nonce": nonce.value.decode(), "name": "r", "version": "1.0", "requested_attributes": {"a1": {"name": "name"}},
                "requested_predicates": {"p1": {"name": "age", "p_type": ">=", "p_value": 18}}}
        rc, prh = from_json('presentation_request', reqj); chk(rc, 'presentation_request_from_json')
        sl, k2 = handlelist([sh.value]); sids, k3 = strlist(['did:web:ffi/schema']); cl, k4 = handlelist([cd.value]); cids, k5 = strlist(['did:web:ffi/cd'])
        ent = (CredEntry * 1)(CredEntry(wc2.value, -1, 0)); proves = (CredProve * 2)(CredProve(0, b'a1', 0, 1), CredProve(0, b'p1', 1, 0))
        pres = H()
        chk(fn('anoncreds_create_w3c_presentation', [H, FfiList, FfiList, C.c_char_p, FfiList, FfiList, FfiList, FfiList, C.c_char_p, C.POINTER(H)])(
            prh, FfiList(1, C.cast(ent, C.c_void_p)), FfiList(2, C.cast(proves, C.c_void_p)), secret, sl, sids, cl, cids, ver, C.byref(pres)), 'create_w3c_presentation')
        res = C.c_int8(-1)
        chk(verify_w3c(pres, prh, sl, sids, cl, cids, FfiList(0, None), FfiList(0, None), FfiList(0, None), FfiList(0, None), C.byref(res)), 'verify_w3c_presentation')
        cases += 1; count('c17:w3c:flow')
        if res.value != 1:
            fail('honest W3C flow made through the C ABI does not verify through the C ABI', dict(kind='ffi-w3c', version=(ver or b'default').decode()), dict(result=res.value))
        pj = json.loads(to_json(pres.value))
        base = dict(format='w3c', request=reqj, schemas=[['did:web:ffi/schema', json.loads(to_json(sh.value))]], cred_defs=[['did:web:ffi/cd', json.loads(to_json(cd.value))]])
        materials.append(dict(base, presentation=pj)); expected.append('T')
        t = json.loads(json.dumps(pj)); t['verifiableCredential'][0]['credentialSubject']['name'] = 'Mallory'
        materials.append(dict(base, presentation=t)); expected.append('notT')
        # W3C -> legacy through the C ABI, presented in legacy form
        lc = H(); chk(fn('anoncreds_credential_from_w3c', [H, C.POINTER(H)])(wc2, C.byref(lc)), 'credential_from_w3c')
        entl = (CredEntry * 1)(CredEntry(lc.value, -1, 0)); pl = H()
        chk(fn('anoncreds_create_presentation', [H, FfiList, FfiList, FfiList, FfiList, C.c_char_p, FfiList, FfiList, FfiList, FfiList, C.POINTER(H)])(
            prh, FfiList(1, C.cast(entl, C.c_void_p)), FfiList(2, C.cast(proves, C.c_void_p)), FfiList(0, None), FfiList(0, None), secret, sl, sids, cl, cids, C.byref(pl)), 'create_presentation (converted)')
        res = C.c_int8(-1)
        chk(verify_legacy(pl, prh, sl, sids, cl, cids, FfiList(0, None), FfiList(0, None), FfiList(0, None), FfiList(0, None), C.byref(res)), 'verify_presentation (converted)')
        cases += 1; count('c17:w3c:converted-presented-legacy')
        if res.value != 1:
            fail('a W3C credential converted through the C ABI does not present in legacy form', dict(kind='ffi-w3c', version=(ver or b'default').decode()), dict(result=res.value))
    native = native_verdicts(materials)
    for want, nv in zip(expected, native):
        cases += 1; count('c17:w3c:verified-natively')
        if (want == 'T') != (nv == 'T'):
            fail('W3C material made through the C ABI is decided differently by the native API', dict(kind='ffi-w3c-native'), dict(want=want, native=nv))


for name, flow_fn in (('revocation', ffi_rev_flow), ('w3c', ffi_w3c_flow)):
    try:
        flow_fn()
    except RuntimeError as ex:
        fail(f'{name} flow through the C ABI failed: ' + str(ex), dict(kind='ffi-' + name))

# ------------------------------------------------------------------ 4. deterministic operations
names, k = strlist(['name', 'age'])
sh = C.c_size_t()
rc = fn('anoncreds_create_schema', [C.c_char_p, C.c_char_p, C.c_char_p, FfiList, C.POINTER(C.c_size_t)])(b'gvt', b'1.0', json.loads(flows['schema_native'])['issuerId'].encode(), names, C.byref(sh))
cases += 1; count('c17:deterministic:create_schema')
if rc != 0 or json.loads(to_json(sh.value)) != json.loads(flows['schema_native']):
    fail('create_schema through the C ABI differs from the native result', dict(kind='deterministic', op='create_schema'), dict(rc=rc))
for kind, text in flows['roundtrips']:
    rc, h = from_json(kind, text)
    back = to_json(h) if rc == 0 else None
    cases += 1; count('c17:deterministic:roundtrip:' + kind)
    if back is None or json.loads(back) != json.loads(text):
        fail('from_json -> get_json through the C ABI changes the document', dict(kind='deterministic', op='roundtrip', type=kind), dict(rc=rc))
    if rc == 0: obj_free(h)

print(json.dumps(dict(cases=cases, dist=dist, oracle_failures=fails[:40], n_failures=len(fails))))
